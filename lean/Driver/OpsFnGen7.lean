import Driver.State
import Driver.OpsCore
import Driver.OpsSearch
import Driver.OpsFnGen3
import Driver.OpsFnGen5
import Driver.OpsFnGen6
import TakVerif.Generated.FuncsZw
import TakVerif.Generated.FuncsSort
namespace Driver
open Tak Codec

/-! `fn.zwsearch`: the seventh batch of regenerated definitions (`Generated/FuncsZw.lean`; harness/verifh/gen_fngen8.go):
`zwSearch` itself, EXECUTED against the real function - there is no bridge theorem for it.  `C_Position` is the model's `Pos`;
the position functions are: `MovePreallocated` = the REGENERATED `Gen.movePreallocated` on the fields of the model position
(`genApply`; a Go panic inside it counts as a refused move), `AllMoves` / `GameOver` / `Hash` / the field views = the model
(`Pos.allMoves`, `Pos.gameOver`, `Pos.hashOf`, bridged to the regenerated definitions in C03_gen / C02_gen2 / C08_gen2), the
evaluator = the harness evaluators `evalMat` / `evalWinner` as modelled in `Impl/Minimax.lean`.  NoSort is always set, the
ordering oracle is the identity.  Fuel: `depth + 2` per call (every level decreases `depth` by at least 1). -/

namespace FnGen7
open FnGen5 FnGen6

def toGen (m : Move) : Gen.Move := { X := m.x, Y := m.y, Type_ := BitVec.ofNat 8 m.type, Slides := m.slides }

def genChild (basis : Array W) (p : Pos) (m : Gen.Move) : Option Pos × Bool :=
  match genApply basis p m true with
  | some (.ok (black, caps, height, stacks, standing, white, bg, wg, blackCaps, blackStones, hash, move, whiteCaps, whiteStones)) =>
    (some { p with
              black := black, caps := caps, height := height, stacks := stacks, standing := standing,
              white := white, bgroups := bg.toList, wgroups := wg.toList, blackCaps := blackCaps,
              blackStones := blackStones, hash := hash, move := move, whiteCaps := whiteCaps, whiteStones := whiteStones }, true)
  | _ => (none, false)

abbrev ZwState := List (Gen.Move × Int) × List (Gen.Move × Gen.Move) × Gen.Stats × Array Gen.Move × Array (Array Gen.Move) × Array Gen.tableEntry × Array Gen.tableEntry

def zeroMv : Gen.Move := { X := 0, Y := 0, Type_ := 0#8, Slides := 0#32 }

def zeroStats : Gen.Stats := default

def runZw (basis : Array W) (ev : Pos → Int) (noNull noRed mc : Bool) (tblNil : Bool) (p : Pos) (ply : Int) (pv : Array Gen.Move) (α : Int) (αs : List Int) (cut : Bool) :
    List Int → Option ((Array Gen.Move × Int) × ZwState) → Option ((Array Gen.Move × Int) × ZwState)
  | [], r => r
  | d :: ds, r =>
    match r with
    | none => none
    | some (_, s) =>
      -- the window of this call: the next of the list, the last one repeated
      let α := αs.headD α
      runZw basis ev noNull noRed mc tblNil p ply pv α αs.tail cut ds
        (Gen.zwSearch (C_Position := Pos) mc noNull noRed true p.cfg.size 0 false false tblNil ev
          (fun q => (q.allMoves.map toGen).toArray) (fun _ => false) (fun q => q.black) (fun q => Int.ofNat q.blackStones.toNat)
          (fun q => (q.gameOver.1, 0#8)) (fun q => q.hashOf) (fun q => q.height) (genChild basis) (fun q => q.stacks) (fun q => q.white)
          (fun q => Int.ofNat q.whiteStones.toNat) (fun _ ms => ms) (d.toNat + 2) p ply d pv α cut s)

/-! `fn.sortmoves` (task 3): `Gen.moveGeneratorSortMoves` with `sort.Sort` as an oracle.  The regenerated definition is run twice:
once with an "oracle" that hands the values it is given back (encoded as moves), which yields the REGENERATED values `vs[:len(ms)]`;
then with the oracle token of the op line - after re-checking that the token is a permutation of `ms` along which those values
are non-increasing. -/

def nonIncreasing : List Int → Bool
  | a :: b :: rest => decide (a ≥ b) && nonIncreasing (b :: rest)
  | _ => true

def fmtInts (l : List Int) : String := if l.isEmpty then "-" else ",".intercalate (l.map toString)

def runSort (hist : List (Gen.Move × Int)) (ms : Array Gen.Move) (mode : Nat) (fill : Int) (res : Array Gen.Move) : String :=
  let n := ms.size
  let (slice, sliceNil, alloc) : Array Int × Bool × Array Int :=
    match mode with
    | 0 => (#[], true, Array.replicate 500 0)
    | 1 => (#[], true, Array.replicate 500 fill)
    | 2 => (Array.replicate (n + 3) fill, false, Array.replicate 500 0)
    | _ => (Array.replicate (n - 1) fill, false, Array.replicate 500 0)
  match Gen.moveGeneratorSortMoves hist alloc slice sliceNil ms (fun _ vs => vs.map fun v => { X := v, Y := 0, Type_ := 0#8, Slides := 0#32 }) with
  | none => "panic"
  | some enc =>
    let vals := enc.toList.map (·.X)
    let pairs := ms.toList.zip vals
    let valOf (m : Gen.Move) : Int := (Gen.mapGet pairs m).getD 0
    if vals.length != n || !(res.toList.isPerm ms.toList) || !(nonIncreasing (res.toList.map valOf)) then "oracle-mismatch" else
    match Gen.moveGeneratorSortMoves hist alloc slice sliceNil ms (fun _ _ => res) with
    | none => "panic"
    | some out => s!"{fmtMvs0 false out} {fmtInts (out.toList.map valOf)}"

end FnGen7
open FnGen5 FnGen6 FnGen7

def handleFnGen7 : Handler := fun st op args =>
  match op, args with
  | "fn.zwsearch", [ptok, ev, opts, tbl, ply, depths, alpha, cut, prev, pv] =>
    match tbl.toInt?, ply.toInt?, (depths.splitOn ",").mapM String.toInt?, (alpha.splitOn ",").mapM String.toInt?, parseMv prev, parseMvs0 pv, opts.toList with
    | some tbl, some ply, some depths, some alpha, some prev, some (_, pv), [o0, o1, o2] =>
      some (st, withPos ptok fun p =>
        let frames := (Array.replicate 15 zeroMv).setIfInBounds (ply - 1).toNat (if ply ≥ 1 then prev else zeroMv)
        let s0 : ZwState := ([], [], zeroStats, frames, Array.replicate 15 (Array.replicate 15 zeroMv), Array.replicate 15 zeroTE,
          Array.replicate tbl.toNat zeroTE)
        let evf : Pos → Int := if ev == "m" then Search.evalMat else Search.evalWinner
        match runZw st.basis evf (o0 == '1') (o1 == '1') (o2 == '1') (tbl < 0) p ply pv 0 alpha (cut == "1") depths (some ((#[], 0), s0)) with
        | none => "panic"
        | some ((ms, v), (hist, resp, stats, fm, fpv, _, table)) =>
          s!"{v} {fmtMvs0 false ms} {FnGen5.fmtStats stats} {fmtTable (tbl < 0) table} {fmtMap fmtMv false resp} {fmtMap toString false hist} {fmtMvs0 false fm} {fmtMvs0 false (fpv.getD ply.toNat #[])}")
    | _, _, _, _, _, _, _ => some (st, "bad-op")
  | "fn.sortmoves", [hist, ms, mode, fill, res] =>
    match parseMap String.toInt? hist, parseMvs0 ms, mode.toNat?, fill.toInt?, parseMvs0 res with
    | some (_, hist), some (_, ms), some mode, some fill, some (_, res) => some (st, runSort hist ms mode fill res)
    | _, _, _, _, _ => some (st, "bad-op")
  | _, _ => none

end Driver
