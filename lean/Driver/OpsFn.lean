import Driver.State
namespace Driver

/-- `fn.*`: the regenerated definitions of `Generated/Funcs.lean`, run against the real functions -/
def handleFn : Handler := fun st op args =>
  match op, args.mapM String.toNat? with
  | "fn.precompute", some [n] =>
    let c := Gen.precompute n
    some (st, s!"{c.Size} {c.L.toNat} {c.R.toNat} {c.T.toNat} {c.B.toNat} {c.Edge.toNat} {c.Mask.toNat}")
  | "fn.grow", some [n, w, s] =>
    some (st, toString (Gen.grow (Gen.precompute n) (BitVec.ofNat 64 w) (BitVec.ofNat 64 s)).toNat)
  | "fn.hash8", some [b, x] => some (st, toString (Gen.hash8 (BitVec.ofNat 64 b) (BitVec.ofNat 8 x)).toNat)
  | "fn.hash64", some [b, w] => some (st, toString (Gen.hash64 (BitVec.ofNat 64 b) (BitVec.ofNat 64 w)).toNat)
  | "fn.slides", some [s, n] =>
    let sl := BitVec.ofNat 32 s
    let b := fun (x : Bool) => if x then 1 else 0
    some (st, s!"{b (Gen.slidesEmpty sl)} {b (Gen.slidesSingleton sl)} {Gen.slidesFirst sl} {(Gen.slidesPrepend sl n).toNat} {(Gen.slideIterNext sl).toNat} {b (Gen.slideIterOk sl)} {Gen.slideIterElem sl}")
  | "fn.satadd", some [l, r] => some (st, toString (Gen.saturatingAdd (BitVec.ofNat 32 l) (BitVec.ofNat 32 r)).toNat)
  | "census", some [_, _, _] =>
    -- the hash-collision census is exploration on the Go side only (sampled support for C08's last clause,
    -- not a theorem and not modelled): the expected answer is that no collision was met
    some (st, "collisions=0")
  | _, _ =>
    match op, args with
    | "nearcoll", [_, _] => some (st, "collisions=0")   -- Go-side structured near-collision search (see gen_census.go)
    | _, _ => none

end Driver
