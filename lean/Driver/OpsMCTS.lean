import Driver.OpsCore
import TakVerif.Impl.MCTS
namespace Driver
open Tak Codec Tak.MCTS

/-! ops `corner`, `mctspop`, `mctsupd`, `mcts` (C04, Monte-Carlo part) -/

def parseBits (s : String) : List Bool :=
  if s == "-" then [] else s.toList.map (· == '1')

structure PathNode where
  proven : Int
  sims : Int
  value : Int
  sibs : List Int

def parsePathNode (s : String) : Option PathNode :=
  match s.splitOn ";" with
  | hd :: tl =>
    match hd.splitOn "," with
    | [p, n, v] => do
      let p ← p.toInt?
      let n ← n.toInt?
      let v ← v.toInt?
      let sibs ← match tl with
        | [] => some []
        | t :: _ => if t == "" then some [] else (t.splitOn ",").mapM String.toInt?
      pure { proven := p, sims := n, value := v, sibs := sibs }
    | _ => none
  | _ => none

/-- the arena the export file builds: path[0] is the root; each later path node is its parent's first
child, followed by its siblings; returns the arena and the index of every path node -/
def buildPath (path : List PathNode) : Arena × List Nat :=
  let dummy : Pos := default
  let mv : Move := default
  let rec go (rest : List PathNode) (a : Arena) (parent : Option Nat) (idxs : List Nat) : Arena × List Nat :=
    match rest with
    | [] => (a, idxs.reverse)
    | n :: rest =>
      let me := a.size
      let a := a.push { pos := dummy, move := mv, sims := n.sims, proven := n.proven, value := n.value, parent := parent }
      let sibIds := (List.range n.sibs.length).map (· + me + 1)
      let a := n.sibs.foldl (fun a sp => a.push { pos := dummy, move := mv, proven := sp, parent := parent }) a
      let a := match parent with
        | some par => match a[par]? with
          | some pn => a.setIfInBounds par { pn with children := me :: sibIds }
          | none => a
        | none => a
      go rest a (some me) (me :: idxs)
  go path #[] none []

def fmtPathNode (a : Arena) (i : Nat) : String :=
  match a[i]? with
  | none => "?"
  | some n =>
    let base := s!"{n.proven},{n.sims},{n.value}"
    match n.parent with
    | none => base
    | some par =>
      match a[par]? with
      | none => base
      | some pn =>
        let sibs := pn.children.drop 1
        if sibs.isEmpty then base else base ++ ";" ++ ",".intercalate (sibs.map (fun s => toString (provenAt a s)))

def handleMCTS : Handler := fun st op args =>
  match op, args with
  | "corner", [ptok, bits] =>
    some (st, withPos ptok fun p =>
      match cornerMove p (parseBits bits) with
      | .ok m => fmtMove m
      | .error (.hang _) => "more"
      | .error _ => "panic")
  | "mctspop", [ptok] =>
    some (st, withPos ptok fun p =>
      let a := populate st.basis #[{ pos := p, move := default }] 0
      match a[0]? with
      | none => "?"
      | some r =>
        if r.children.isEmpty then "-" else
        " ".intercalate (r.children.map (fun c => match a[c]? with
          | some n => fmtMove n.move ++ ":" ++ toString n.proven
          | none => "?")))
  | "mctsupd", v :: path =>
    match v.toInt?, path.mapM parsePathNode with
    | some v, some path =>
      let (a, idxs) := buildPath path
      let a := update (a.size + 1) a idxs.getLast? v
      some (st, " ".intercalate (idxs.map (fmtPathNode a)))
    | _, _ => some (st, "bad-op")
  | "mcts", [_, _, _, _, ptok] =>
    -- every answer of the player is legal (C04.mcts_move_legal, C04.corner_legal): the model's output is the claim
    some (st, withPos ptok fun p => if p.gameOver.1 then "n/a" else "legal")
  | _, _ => none

end Driver
