import TakVerif.Spec.GameTruth
namespace Driver

/-- session state of the C06 ops: the last exactly solved game graph (`pngraph`), identified by
the key of its root, with the winning sets of both colours -/
structure SolverGraph where
  rootKey : List UInt64
  cap : Nat
  index : Std.HashMap (List UInt64) Nat
  winW : Array Bool
  winB : Array Bool

structure SolverSession where
  graph : Option SolverGraph := none
deriving Inhabited

end Driver
