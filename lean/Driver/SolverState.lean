import TakVerif.Spec.GameTruth
import TakVerif.Impl.DFPN
namespace Driver

/-- session state of the C06 ops: the last exactly solved game graph (`pngraph`), identified by
the key of its root, with the winning sets of both colours -/
structure SolverGraph where
  rootKey : List UInt64
  cap : Nat
  index : Std.HashMap (List UInt64) Nat
  winW : Array Bool
  winB : Array Bool

structure SolverSession where
  /-- cache: survives `case` (a pure function of root position and cap) -/
  graph : Option SolverGraph := none
  /-- depth-first solvers kept between `dfpnuse` ops (table, killer moves, attacker) -/
  dfpn : List (String × Tak.DFPN.Solver Tak.Move) := []
  /-- provers kept between `pnuse` ops: the configuration as earlier calls rewrote it -/
  pn : List (String × Tak.PN.Cfg) := []
deriving Inhabited

end Driver
