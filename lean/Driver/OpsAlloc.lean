import Driver.State
namespace Driver
open Tak Codec

def obsStr (p : Pos) : String :=
  let d := p.winDetails
  s!"{fmtPos p} over={if d.over then 1 else 0}{colorStr d.winner} hash={p.hashOf.toNat} nmoves={p.allMoves.length} held=ok"

/-- run one `Tak.Op` on both interpreters; `none` if they disagree about the outcome (never: `C09.heap_refines_pure`) -/
def stepBoth (st : St) (op : Op) : Option (St × StepRes) :=
  let (hs, r1) := st.hs.step st.basis op
  let (ps, r2) := st.ps.step st.basis op
  if r1 = r2 then some ({ st with hs := hs, ps := ps }, r1) else none

/-- the slice headers of an object, as far as they do not depend on `append`'s growth policy (cf. `hdrStr` in ops_alloc.go).
Height/Stacks are the object's own arrays by construction of the model (`h=own s=own`): the Go side checks that claim. -/
def hdrStr (o : PObj) : String :=
  let wOwn := o.wg.arr == o.own
  let w := if wOwn then s!"w=own wlen={o.wg.len} wcap={o.wg.cap}" else s!"w=ext wlen={o.wg.len}"
  let b :=
    if !wOwn then s!" b=? len={o.bg.len}"
    else if o.bg.cap == 0 then " b=empty"
    else if o.bg.arr == o.wg.arr then s!" b=inw off={o.bg.off - o.wg.off} len={o.bg.len} cap={o.bg.cap}"
    else s!" b=ext len={o.bg.len}"
  w ++ b ++ " h=own s=own"

def setSlot (st : St) (k : Nat) (v : Option Nat) : St := { st with slots := st.slots.setIfInBounds k v }

def handleAlloc : Handler := fun st op args =>
  match op, args with
  | "case", _ => some ({ st with hs := {}, ps := #[], slots := Array.replicate 16 none }, "ok")
  | "h.new", [slot, size, pieces, caps, bwt] =>
    match slot.toNat?, size.toNat?, pieces.toNat?, caps.toNat?, bwt.toNat? with
    | some k, some n, some pc, some cp, some b =>
      match stepBoth st (.new ⟨n, pc, cp, b != 0⟩) with
      | some (st, .ok i) => some (setSlot st k (some i), "ok")
      | some (st, _) => some (st, "panic")
      | none => some (st, "model-mismatch")
    | _, _, _, _, _ => some (st, "bad-op")
  -- tak.Alloc(size): storage of the shape New allocates; the harness never observes it, it only serves as a buffer
  | "h.alloc", [slot, size] =>
    match slot.toNat?, size.toNat? with
    | some k, some n =>
      match stepBoth st (.new ⟨n, 0, 0, false⟩) with
      | some (st, .ok i) => some (setSlot st k (some i), "ok")
      | some (st, _) => some (st, "panic")
      | none => some (st, "model-mismatch")
    | _, _ => some (st, "bad-op")
  | "h.fromraw", [slot, ptok] =>
    match slot.toNat?, parsePos ptok with
    | some k, some (p, true) =>
      match stepBoth st (.fromValue p) with
      | some (st, .ok i) => some (setSlot st k (some i), "ok")
      | some (st, _) => some (st, "hang")
      | none => some (st, "model-mismatch")
    | _, _ => some (st, "bad-op")
  | "h.clone", [dst, src] =>
    match dst.toNat?, src.toNat? with
    | some d, some s =>
      match st.slots.getD s none with
      | some si =>
        match stepBoth st (.clone si) with
        | some (st, .ok i) => some (setSlot st d (some i), "ok")
        | some (st, _) => some (st, "bad-slot")
        | none => some (st, "model-mismatch")
      | none => some (st, "bad-slot")
    | _, _ => some (st, "bad-op")
  | "h.move", dst :: src :: mtok :: rest =>
    match dst.toNat?, src.toNat?, parseMove mtok with
    | some d, some s, some m =>
      let buf : Option (Option Nat) :=
        match rest with
        | [] => some none          -- Position.Move
        | ["nil"] => some none     -- MovePreallocated(m, nil): allocates like Move
        | [b] => b.toNat?.map some
        | _ => none
      match buf, st.slots.getD s none with
      | some bufSlot, some si =>
        let mop : Option Op :=
          match bufSlot with
          | none => some (.move si m)
          | some b => (st.slots.getD b none).map (fun bi => .movepre si m bi)
        match mop with
        | none => some (st, "bad-slot")
        | some mop =>
          match stepBoth st mop with
          | none => some (st, "model-mismatch")
          | some (st, .rejected) => some (st, "bad-slot")
          | some (st, .ok i) =>
            -- a buffer that was handed in is no longer the position it used to be
            let st := match bufSlot with
              | some b => setSlot st b none
              | none => st
            some (setSlot st d (some i), "ok")
          | some (st, .failed) =>
            -- failed move: Go returns nil; the buffer object stays in its slot, usable as a buffer only
            some (setSlot st d none, "err")
      | _, _ => some (st, "bad-slot")
    | _, _, _ => some (st, "bad-op")
  | "h.obs", [slot] =>
    match slot.toNat? with
    | some k =>
      match st.slots.getD k none with
      | some i =>
        if i ∈ st.hs.live then
          match st.hs.heap.observe i with
          | some p => some (st, obsStr p)
          | none => some (st, "bad-slot")
        else some (st, "dead")
      | none => some (st, "dead")
    | none => some (st, "bad-op")
  | "h.hdr", [slot] =>
    match slot.toNat? with
    | some k =>
      match st.slots.getD k none with
      | some i =>
        if i ∈ st.hs.live then
          match st.hs.heap.objs[i]? with
          | some o => some (st, hdrStr o)
          | none => some (st, "bad-slot")
        else some (st, "dead")
      | none => some (st, "dead")
    | none => some (st, "bad-op")
  -- real storage windows of distinct objects are disjoint: what `Separated` (C09.heap_refines_pure) says of the model
  | "h.sep", [] => some (st, "sep=1")
  -- values: what a player does with its own scratch positions is invisible in a clone and in the source
  | "clonemcts", [_policy, _seed, ptok] =>
    match parsePos ptok with
    | some (p, true) => some (st, if p.winDetails.over then "n/a" else "clone=ok src=ok")
    | _ => some (st, "bad-pos")
  | "p.obs", [slot] =>
    match slot.toNat? with
    | some k =>
      match st.slots.getD k none with
      | some i =>
        match st.ps.get i with
        | some p => some (st, obsStr p)
        | none => some (st, "dead")
      | none => some (st, "dead")
    | none => some (st, "bad-op")
  | _, _ => none

end Driver
