import Driver.State
namespace Driver
open Tak Codec

def obsStr (p : Pos) : String :=
  let d := p.winDetails
  s!"{fmtPos p} over={if d.over then 1 else 0}{colorStr d.winner} hash={p.hashOf.toNat} nmoves={p.allMoves.length}"

def setSlots (st : St) (k : Nat) (hi : Option Nat) (pv : Option Pos) : St :=
  { st with hslots := st.hslots.setIfInBounds k hi, pslots := st.pslots.setIfInBounds k pv }

def handleAlloc : Handler := fun st op args =>
  match op, args with
  | "case", _ => some ({ st with heap := {}, hslots := Array.replicate 16 none, pslots := Array.replicate 16 none }, "ok")
  | "h.new", [slot, size, pieces, caps, bwt] =>
    match slot.toNat?, size.toNat?, pieces.toNat?, caps.toNat?, bwt.toNat? with
    | some k, some n, some pc, some cp, some b =>
      let cfg : Cfg := ⟨n, pc, cp, b != 0⟩
      match st.heap.new cfg, Pos.new cfg with
      | .ok (h, i), .ok p => some (setSlots { st with heap := h } k (some i) (some p), "ok")
      | _, _ => some (st, "panic")
    | _, _, _, _, _ => some (st, "bad-op")
  | "h.fromraw", [slot, ptok] =>
    match slot.toNat?, parsePos ptok with
    | some k, some (p, true) =>
      let (h, i) := st.heap.allocFrom p Slice.nil
      match h.analyze i with
      | some h => some (setSlots { st with heap := h } k (some i) (some p), "ok")
      | none => some (st, "hang")
    | _, _ => some (st, "bad-op")
  | "h.clone", [dst, src] =>
    match dst.toNat?, src.toNat? with
    | some d, some s =>
      match (st.hslots.getD s none), (st.pslots.getD s none) with
      | some si, some pv =>
        match st.heap.clone si with
        | some (h, i) =>
          -- pure semantics of Clone: the same value, analysed
          match pv.analyze with
          | some pv' => some (setSlots { st with heap := h } d (some i) (some pv'), "ok")
          | none => some (st, "hang")
        | none => some (st, "bad-slot")
      | _, _ => some (st, "bad-slot")
    | _, _ => some (st, "bad-op")
  | "h.move", dst :: src :: mtok :: rest =>
    match dst.toNat?, src.toNat?, parseMove mtok with
    | some d, some s, some m =>
      let buf : Option (Option Nat) :=
        match rest with
        | [] => some none
        | [b] => b.toNat?.map some
        | _ => none
      match buf, (st.hslots.getD s none), (st.pslots.getD s none) with
      | some bufSlot, some si, some pv =>
        let bufObj : Option (Option Nat) :=
          match bufSlot with
          | none => some none
          | some b => (st.hslots.getD b none).map some
        match bufObj with
        | none => some (st, "bad-slot")
        | some bo =>
          match st.heap.move st.basis si m bo with
          | none => some (st, "bad-slot")
          | some (h, res) =>
            let st := { st with heap := h }
            -- a buffer that was handed in is no longer the position it used to be
            let st := match bufSlot with
              | some b => setSlots st b none none
              | none => st
            match res, pv.apply st.basis m with
            | some i, .ok q => some (setSlots st d (some i) (some q), "ok")
            | none, .error _ =>
              -- failed move: Go returns nil; the buffer object stays usable as a buffer only
              let st := match bufSlot, bo with
                | some b, some bi => { st with hslots := st.hslots.setIfInBounds b (some bi) }
                | _, _ => st
              some (setSlots st d none none, "err")
            | _, _ => some (st, "model-mismatch")
      | _, _, _ => some (st, "bad-slot")
    | _, _, _ => some (st, "bad-op")
  | "h.obs", [slot] =>
    match slot.toNat? with
    | some k =>
      match st.hslots.getD k none, st.pslots.getD k none with
      | some i, some _ =>
        match st.heap.observe i with
        | some p => some (st, obsStr p)
        | none => some (st, "bad-slot")
      | _, _ => some (st, "dead")
    | none => some (st, "bad-op")
  | "p.obs", [slot] =>
    match slot.toNat? with
    | some k =>
      match st.pslots.getD k none with
      | some p => some (st, obsStr p)
      | none => some (st, "dead")
    | none => some (st, "bad-op")
  | _, _ => none

end Driver
