import Driver.OpsCore
import TakVerif.Impl.WFBoard
import TakVerif.Impl.Result
namespace Driver
open Tak Codec

/-- ops of the road / game-end package (C02) -/
def handleRoads : Handler := fun st op args =>
  match op, args with
  -- the hypothesis of the C02 theorems (`Roads.WFBoard`, via `Roads.wfBoardB_iff`),
  -- evaluated on the position as the real code holds it (18-field token: with the code's own group lists)
  | "wfb", [ptok] => some (st, withPos ptok fun p => if p.wfBoardB then "1" else "0")
  -- `ptn.ResultFromGame`
  | "result", [ptok] =>
    some (st, withPos ptok fun p =>
      match p.resultFromGame with
      | .ok r => r
      | .error e => fmtErr e)
  | "sresult", [ptok] =>
    some (st, withPos ptok fun p =>
      match Spec.result (Spec.abs p) with
      | some r => r
      | none => "panic")
  | _, _ => none

end Driver
