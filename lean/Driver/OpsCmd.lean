import Driver.OpsSearch
import Driver.OpsSolvers
import Driver.OpsPTN
import TakVerif.Impl.CmdAnalyze
import TakVerif.Impl.CmdCorpus
import TakVerif.Impl.TPS

/-! Driver ops of the command front ends (work package "cmdglue"; Go side: `harness/verifh/ops_cmd.go`).

* `cmd.an <flags> <hex of the PTN file>` — `taktician analyze <flags> FILE`: every printed line (white space
  normalised, wall-clock fields dropped) joined by ` | `; `FATAL` = the command left through `log.Fatal`;
  `flagerr` = the flag parser rejected the arguments.  `<flags>` = `name`, `name=value` or `name=hex:<hex>`
  separated by `;` (`-` = none); the Go side hands them to the real `flag.FlagSet` filled by the command's own
  `SetFlags`, the model side reads them into `CmdAnalyze.Flags` (defaults = the defaults of `SetFlags`).
* `cmd.gc <analysis> <size> <pos>…` — the entries one `gencorpus` worker sends for these positions in this order.
* `cmd.gcmm <label> <move> <pos>` — a label of the real minimax worker, checked against exhaustive search. -/
namespace Driver.CmdOps
open Tak Codec Tak.CmdAnalyze

/-! ### the flag token -/

/-- `strconv.ParseBool` -/
def parseBool (s : String) : Option Bool :=
  if ["1", "t", "T", "TRUE", "true", "True"].contains s then some true
  else if ["0", "f", "F", "FALSE", "false", "False"].contains s then some false
  else none

/-- decimal integers only (the generator writes nothing else; `flag` would also take `0x…`, `1_000`) -/
def parseInt (s : String) : Option Int := s.toInt?

def parseNatF (s : String) : Option Nat := s.toNat?

/-- `time.ParseDuration` for the spellings the generator uses: `0`, `<n>h|m|s|ms` -/
def parseDur (s : String) : Option Unit :=
  if s == "0" then some () else
  let cs := s.toList
  let digits := cs.takeWhile Char.isDigit
  let unit := String.ofList (cs.dropWhile Char.isDigit)
  if digits.isEmpty then none else if ["h", "m", "s", "ms", "us", "ns"].contains unit then some () else none

def valBytes (v : String) : Option PTN.Bytes :=
  if v.startsWith "hex:" then PTNOps.hexDec (v.drop 4).toString else some v.toUTF8.toList

inductive FlagRes where
  | ok (f : Flags)
  | err
  | unmodelled (what : String)

/-- one `-name[=value]` argument applied to the command's fields, as `flag.FlagSet.Parse` does -/
def applyFlag (f : Flags) (name : String) (val : Option String) : FlagRes :=
  let b (k : Bool → Flags) : FlagRes :=
    match val with
    | none => .ok (k true)
    | some v => match parseBool v with | some x => .ok (k x) | none => .err
  let i (k : Int → Flags) : FlagRes :=
    match val with
    | none => .err     -- the value would be taken from the next argument (the file name): never generated
    | some v => match parseInt v with | some x => .ok (k x) | none => .err
  let n (k : Nat → Flags) : FlagRes :=
    match val with
    | none => .err
    | some v => match parseNatF v with | some x => .ok (k x) | none => .err
  let s (k : PTN.Bytes → Flags) : FlagRes :=
    match val with
    | none => .err
    | some v => match valBytes v with | some x => .ok (k x) | none => .err
  match name with
  | "tps" => b fun x => { f with tps := x }
  | "quiet" => b fun x => { f with quiet := x }
  | "mcts" => b fun x => { f with mcts := x }
  | "prove" => b fun x => { f with prove := x }
  | "dfpn" => b fun x => { f with dfpn := x }
  | "move" => i fun x => { f with move := x }
  | "all" => b fun x => { f with all := x }
  | "black" => b fun x => { f with black := x }
  | "white" => b fun x => { f with white := x }
  | "variation" => s fun x => { f with variation := x }
  | "limit" => (match val with | some v => (match parseDur v with | some _ => .ok f | none => .err) | none => .err)
  | "evaluate" => b fun x => { f with eval := x }
  | "explain" => b fun x => { f with explain := x }
  | "depth" => i fun x => { f with depth := x }
  | "max-evals" => n fun x => { f with maxEvals := x }
  | "sort" => b fun x => { f with sort := x }
  | "table-mem" => i fun x => { f with tableMem := x }
  | "null-move" => b fun x => { f with nullMove := x }
  | "extend-forces" => b fun _ => f
  | "reduce-slides" => b fun x => { f with reduceSlides := x }
  | "multi-cut" => b fun x => { f with multiCut := x }
  | "precise" => b fun x => { f with precise := x }
  | "symmetry" => b fun x => { f with symmetry := x }
  | "dump-tree" => s fun x => { f with dumpTree := x }
  | "max-nodes" => n fun x => { f with maxNodes := x }
  | "max-depth" => i fun x => { f with maxDepth := x }
  | "pn2" => b fun x => { f with pn2 := x }
  | "attacker" => s fun x => { f with attacker := x }
  | "debug" | "seed" | "weights" | "mod-weights" | "log-cuts" | "mcts.c" => .unmodelled name
  | _ => .err

def parseFlags (tok : String) : FlagRes :=
  if tok == "-" then .ok {} else
  (tok.splitOn ";").foldl (fun acc t =>
    match acc with
    | .ok f =>
      match t.splitOn "=" with
      | [name] => applyFlag f name none
      | name :: rest => applyFlag f name (some ("=".intercalate rest))
      | [] => .err
    | r => r) (.ok {})

/-! ### the searchers, plugged in -/

def mmGame (st : St) : Search.Game Pos Move := gameOf st "def"

/-- `Engines` over the existing models: `ai.MinimaxAI` = `Search.Eng` with the default evaluator of the board size
(`MakeEvaluator(size, &DefaultWeights[size])`), PN / DFPN = `Tak.PN.takProve` / `Tak.DFPN.takProve` -/
def engines (st : St) : Engines (Search.Eng Move) :=
  { newMinimax := fun _ cfg => Search.Eng.new (mmGame st) cfg
    analyzeAll := fun cfg e p =>
      match Search.analyzeAll (mmGame st) cfg (oracleOf 0) p e with
      | .error e => .error e
      | .ok ((pvs, v, _), e) => .ok ((pvs, v), e)
    evaluate := fun _ p => evaluateDefault p.c p
    pn := fun cfg p => Tak.PN.takProve st.basis solverFuel cfg p
    dfpn := fun att entries p => Tak.DFPN.takProve st.basis dfpnScale solverFuel att entries p
    formatTPS := Tak.TPS.formatTPS }

def fmtOut (env : PTN.Env) (o : Out Unit) : String :=
  let ls := o.lines env
  match o.2 with
  | .error (.panic _) => "panic"        -- the harness reports a Go panic as `panic`, whatever was printed before
  | .error (.hang _) => "hang"
  | .error (.unmodelled w) => "unmodelled:" ++ w
  | .error (.fatal _) => " | ".intercalate (ls ++ ["FATAL"])
  | .ok _ => if ls.isEmpty then "-" else " | ".intercalate ls

/-! ### gencorpus -/

def solvers (st : St) : Tak.CmdCorpus.Solvers (Tak.DFPN.Solver Move) :=
  Tak.CmdCorpus.takSolvers st.basis dfpnScale solverFuel

def fmtEntry (e : Tak.CmdCorpus.Entry) : String := fmtOptMove e.move ++ ":" ++ e.value.text

def fmtEntries (r : Except Err (List Tak.CmdCorpus.Entry)) : String :=
  match r with
  | .error e => fmtErr e
  | .ok es => " ".intercalate (es.map fmtEntry)

/-- what exhaustive search of the first plies (winner-only evaluation) says about a label of the minimax worker:
a position the side to move wins at once must be labelled `+1` with a move that wins at once; `+1` must not go
with a forced loss within two plies, `-1` not with a win within three. -/
def checkMinimaxLabel (st : St) (label : String) (m : Move) (p : Pos) : String :=
  let g := gameOf st "w"
  let d1 := decisive (Search.negamax g 1 p)
  if d1 == 1 then
    if label != "+1.000000" then "bad:immediate-win-not-labelled" else
    match g.apply p m with
    | .ok c => if decisive (-(Search.negamax g 0 c)) == 1 then "ok" else "bad:move-does-not-win"
    | .error _ => "bad:move-illegal"
  else if label == "+1.000000" then
    (if decisive (Search.negamax g 2 p) == -1 then "bad:win-label-but-forced-loss" else
     match g.apply p m with
     | .ok _ => "ok"
     | .error _ => "bad:move-illegal")
  else if label == "-1.000000" then
    (if decisive (Search.negamax g 3 p) == 1 then "bad:loss-label-but-forced-win" else "ok")
  else if label == "+0.500000" || label == "+0.000000" then
    (match g.apply p m with | .ok _ => "ok" | .error _ => "bad:move-illegal")
  else "bad:label"

def handleCmd : Handler := fun st op args =>
  match op, args with
  | "cmd.an", [ftok, h] =>
    some (st, match parseFlags ftok, PTNOps.hexDec h with
      | _, none => "bad-hex"
      | .err, _ => "flagerr"
      | .unmodelled w, _ => "unmodelled:" ++ w
      | .ok f, some input => fmtOut (PTN.realEnv st.basis) (execute (PTN.realEnv st.basis) (engines st) f input))
  | "cmd.gc", analysis :: _size :: ptoks =>
    some (st, match ptoks.mapM parsePos with
      | none => "bad-pos"
      | some ps =>
        let ps := ps.map (·.1)
        if analysis == "dfpn" then fmtEntries (Tak.CmdCorpus.dfpnWorker (solvers st) {} ps)
        else if analysis == "none" then fmtEntries (.ok (Tak.CmdCorpus.noneWorker ps))
        else "unmodelled:" ++ analysis)
  | "cmd.gcmm", [label, mtok, ptok] =>
    some (st, withPos ptok fun p =>
      match Codec.parseMove mtok with
      | none => "bad-move"
      | some m => checkMinimaxLabel st label m p)
  | _, _ => none

end Driver.CmdOps

namespace Driver
def handleCmd : Handler := CmdOps.handleCmd
end Driver
