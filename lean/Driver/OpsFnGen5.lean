import Driver.State
import Driver.OpsCore
import TakVerif.Generated.FuncsSearch
namespace Driver
open Tak Codec

/-! `fn.*` ops of the fifth batch of regenerated definitions (`Generated/FuncsSearch.lean`; harness/verifh/gen_fngen6.go):
the helpers of the alpha-beta search in `ai/minimax.go` - `Stats.Merge`, `nullMoveOK`, `ttGet`, `ttPut`, `recordCut`.
`none` (a Go panic) prints `panic`.  Encodings: see the Go file. -/

namespace FnGen5

def parseMv (tok : String) : Option Gen.Move :=
  match (tok.splitOn ":").mapM String.toInt? with
  | some [x, y, t, s] => some { X := x, Y := y, Type_ := BitVec.ofInt 8 t, Slides := BitVec.ofInt 32 s }
  | _ => none

def fmtMv (m : Gen.Move) : String := s!"{m.X}:{m.Y}:{m.Type_.toNat}:{m.Slides.toNat}"

def parseMvs (tok : String) : Option (Array Gen.Move) := ((tok.splitOn ",").mapM parseMv).map List.toArray

def mvKey (m : Gen.Move) : List Int := [m.X, m.Y, m.Type_.toNat, m.Slides.toNat]

def keyLe : List Int → List Int → Bool
  | [], _ => true
  | _ :: _, [] => false
  | a :: as, b :: bs => if a < b then true else if a > b then false else keyLe as bs

def parseMap {V : Type} (pv : String → Option V) (tok : String) : Option (Bool × List (Gen.Move × V)) :=
  if tok == "nil" then some (true, [])
  else if tok == "-" then some (false, [])
  else
    ((tok.splitOn ";").mapM fun (kv : String) =>
      match kv.splitOn "=" with
      | [k, v] => do pure ((← parseMv k), (← pv v))
      | _ => none).map fun l => (false, l)

def fmtMap {V : Type} (fv : V → String) (isNil : Bool) (l : List (Gen.Move × V)) : String :=
  if isNil then "nil" else if l.isEmpty then "-" else
  let sorted := l.mergeSort fun a b => keyLe (mvKey a.1) (mvKey b.1)
  ";".intercalate (sorted.map fun (k, v) => s!"{fmtMv k}={fv v}")

def zeroTE : Gen.tableEntry := { hash := 0#64, value := 0, m := { X := 0, Y := 0, Type_ := 0#8, Slides := 0#32 }, bound := 0#8, depth := 0 }

def parseTE (tok : String) : Option (Nat × Gen.tableEntry) :=
  match tok.splitOn "=" with
  | [i, rest] =>
    match rest.splitOn ":" with
    | [h, v, b, d, x, y, t, s] => do
      let m ← parseMv (":".intercalate [x, y, t, s])
      pure ((← i.toNat?), { hash := BitVec.ofNat 64 (← h.toNat?), value := (← v.toInt?), m := m, bound := BitVec.ofInt 8 (← b.toInt?), depth := (← d.toInt?) })
    | _ => none
  | _ => none

/-- `(isNil, table)` -/
def parseTable (tok : String) : Option (Bool × Array Gen.tableEntry) :=
  if tok == "nil" then some (true, #[]) else
  match tok.splitOn "/" with
  | [n, es] => do
    let n ← n.toNat?
    let es ← if es == "" then some [] else (es.splitOn ",").mapM parseTE
    pure (false, es.foldl (fun t (i, e) => t.setIfInBounds i e) (Array.replicate n zeroTE))
  | _ => none

def fmtTE (i : Nat) (e : Gen.tableEntry) : String :=
  s!"{i}={e.hash.toNat}:{e.value}:{e.bound.toNat}:{e.depth}:{fmtMv e.m}"

def fmtTable (isNil : Bool) (t : Array Gen.tableEntry) : String :=
  if isNil then "nil" else
  let es := (List.range t.size).filterMap fun i =>
    let e := t.getD i zeroTE
    if e == zeroTE then none else some (fmtTE i e)
  s!"{t.size}/{",".intercalate es}"

def parseStats (tok : String) : Option Gen.Stats :=
  match (tok.splitOn ",").mapM String.toInt? with
  | some [d, c, el, f0, f1, f2, f3, f4, f5, f6, f7, f8, f9, f10, f11, f12, f13, f14, f15, f16, f17, f18] =>
    let u (v : Int) : BitVec 64 := BitVec.ofInt 64 v
    some { Depth := d, Canceled := c != 0, Elapsed := el, Generated := u f0, Evaluated := u f1, Scout := u f2, Terminal := u f3,
           Visited := u f4, CutNodes := u f5, NullSearch := u f6, NullCut := u f7, Cut0 := u f8, Cut1 := u f9, CutSearch := u f10,
           ReSearch := u f11, AllNodes := u f12, TTHits := u f13, TTShortcut := u f14, Extensions := u f15, ReducedSlides := u f16,
           MCSearch := u f17, MCCut := u f18 }
  | _ => none

def fmtStats (s : Gen.Stats) : String :=
  let us := [s.Generated, s.Evaluated, s.Scout, s.Terminal, s.Visited, s.CutNodes, s.NullSearch, s.NullCut, s.Cut0, s.Cut1, s.CutSearch,
    s.ReSearch, s.AllNodes, s.TTHits, s.TTShortcut, s.Extensions, s.ReducedSlides, s.MCSearch, s.MCCut]
  s!"{s.Depth},{if s.Canceled then 1 else 0},{s.Elapsed}," ++ ",".intercalate (us.map fun v => toString v.toNat)

def fmtSlot : Option Nat → String
  | none => "nil"
  | some i => toString i

end FnGen5
open FnGen5

def handleFnGen5 : Handler := fun st op args =>
  match op, args with
  | "fn.statsmerge", [a, b] =>
    match parseStats a, parseStats b with
    | some a, some b => some (st, fmtStats (Gen.statsMerge a b))
    | _, _ => some (st, "bad-op")
  | "fn.nullok", [nn, ply, depth, ms, ptok] =>
    match ply.toInt?, depth.toInt?, parseMvs ms with
    | some ply, some depth, some ms =>
      some (st, withPos ptok fun p =>
        match Gen.nullMoveOK (nn == "1") ms ply depth p.black (Int.ofNat p.blackStones.toNat) p.stacks p.white (Int.ofNat p.whiteStones.toNat) with
        | some b => if b then "1" else "0"
        | none => "panic")
    | _, _, _ => some (st, "bad-op")
  | "fn.ttget", [t, h] =>
    match parseTable t, h.toNat? with
    | some (isNil, t), some h =>
      some (st, match Gen.ttGet t isNil (BitVec.ofNat 64 h) with
        | some slot => fmtSlot slot
        | none => "panic")
    | _, _ => some (st, "bad-op")
  | "fn.ttput", [t, c, h] =>
    match parseTable t, c.toInt?, h.toNat? with
    | some (isNil, t), some c, some h =>
      some (st, match Gen.ttPut c t isNil (BitVec.ofNat 64 h) with
        | some (slot, t') => s!"{fmtSlot slot} {fmtTable isNil t'}"
        | none => "panic")
    | _, _, _ => some (st, "bad-op")
  | "fn.recordcut", [hist, resp, c0, c1, cn, cs, ms, m, move, depth, ply] =>
    match parseMap String.toInt? hist, parseMap parseMv resp, [c0, c1, cn, cs].mapM String.toNat?, parseMvs ms, parseMv m,
        [move, depth, ply].mapM String.toInt? with
    | some (hn, hist), some (rn, resp), some [c0, c1, cn, cs], some ms, some m, some [move, depth, ply] =>
      let u (v : Nat) : BitVec 64 := BitVec.ofNat 64 v
      some (st, match Gen.recordCut hist hn resp rn (u c0) (u c1) (u cn) (u cs) ms m move depth ply with
        | some (h', r', c0, c1, cn, cs) =>
          s!"{fmtMap toString hn h'} {fmtMap fmtMv rn r'} {c0.toNat} {c1.toNat} {cn.toNat} {cs.toNat}"
        | none => "panic")
    | _, _, _, _, _, _ => some (st, "bad-op")
  | _, _ => none

end Driver
