import Driver.OpsCore
import TakVerif.Impl.FPARepair
import TakVerif.Spec.FPA
namespace Driver
open Tak Codec Tak.FPA

/-! ops `fpa`, `fpaopts`, `fpafn` (C20): the opening scripts driven the way `Friendly.GetMove` drives them -/

def parseVariant : String → Option Variant
  | "center" => some .center | "doublestack" => some .doubleStack | "cairn" => some .cairn | _ => none

def fpaHorizon : Variant → Nat
  | .center => 2 | _ => 6

structure FpaSt where
  rule : Rule := {}
  positions : List Pos        -- newest first
  moves : List Move := []     -- newest first
  trace : List String := []   -- newest first
  needs : Bool := false

/-- the replay loop of the harness op, on the model -/
def fpaLoop (basis : Array W) (var : Variant) (color : Color) (horizon : Nat) :
    Nat → Nat → List Move → FpaSt → FpaSt
  | 0, _, _, st => st
  | fuel+1, ply, choices, st =>
    match st.positions with
    | [] => st
    | p :: older =>
      -- the record as the repaired `Friendly.GetMove` reads it: every pair, oldest first
      let hist := (older.reverse.zip st.moves.reverse).map fun (q, m) => (viewOfPos q, m)
      match friendlyGetMoveR var color st.rule (viewOfPos p) p.toMove hist with
      | .error _ => { st with trace := "panic" :: st.trace }
      | .ok (r, .resign) => { st with rule := r, trace := "resign" :: st.trace }
      | .ok (r, reply) =>
        let st := { st with rule := r }
        if ply == horizon then { st with trace := "done" :: st.trace } else
        let (tag, played, rest) := match reply with
          | .scripted m => ("s", some m, choices)
          | .search => ("a", choices.head?, choices.drop 1)
          | _ => ("o", choices.head?, choices.drop 1)
        match played with
        | none => { st with trace := "end" :: st.trace, needs := true }
        | some m =>
          let tok := tag ++ ":" ++ fmtMove m
          match p.apply basis m with
          | .ok q => fpaLoop basis var color horizon fuel (ply+1) rest
                      { st with positions := q :: st.positions, moves := m :: st.moves, trace := tok :: st.trace }
          | .error _ => { st with trace := "illegal" :: tok :: st.trace }

def fpaRun (basis : Array W) (var : Variant) (color : Color) (size : Nat) (choices : List Move) : Option FpaSt :=
  match Pos.new { size := size, pieces := 0, capstones := 0, blackWinsTies := true } with
  | .ok p0 => some (fpaLoop basis var color (fpaHorizon var) (fpaHorizon var + 1) 0 choices { positions := [p0] })
  | .error _ => none

/-- cut a token list at every "|" -/
def splitBar : List String → List (List String)
  | [] => [[]]
  | t :: ts =>
    match splitBar ts with
    | [] => if t == "|" then [[], []] else [[t]]
    | g :: gs => if t == "|" then [] :: g :: gs else (t :: g) :: gs

def fpaParse (args : List String) : Option (Variant × Color × Nat × List Move) :=
  match args with
  | v :: c :: s :: ms => do
    let var ← parseVariant v
    let col := if c == "W" then Color.white else Color.black
    let size ← s.toNat?
    let ms ← ms.mapM parseMove
    pure (var, col, size, ms)
  | _ => none

def handleFPA : Handler := fun st op args =>
  match op with
  | "fpa" =>
    match fpaParse args with
    | some (var, col, size, ms) =>
      match fpaRun st.basis var col size ms with
      | some r => some (st, " ".intercalate r.trace.reverse)
      | none => some (st, "panic")
    | none => some (st, "bad-op")
  -- one rule value for several games: the rule's notes of an earlier game are no part of a later one
  | "fpaseq" =>
    match args with
    | var :: rest =>
      let games := (splitBar rest).filter (fun g => g.length ≥ 2)
      let outs := games.map fun g =>
        match fpaParse (var :: g) with
        | some (v, col, size, ms) =>
          match fpaRun st.basis v col size ms with
          | some r => " ".intercalate r.trace.reverse
          | none => "panic"
        | none => "bad-op"
      some (st, " || ".intercalate outs)
    | _ => some (st, "bad-op")
  | "fpaopts" =>
    match fpaParse args with
    | some (var, col, size, ms) =>
      match fpaRun st.basis var col size ms with
      | some r =>
        let out := " ".intercalate r.trace.reverse
        if !r.needs then some (st, out) else
        match r.positions with
        | p :: _ =>
          let legal := p.allMoves.filter (fun m => (p.apply st.basis m).isOk)
          let acc := legal.filter (fun m => match legalMove var r.rule (viewOfPos p) m with
            | .ok (_, ok) => ok
            | .error _ => false)
          -- second opinion: the list-level generator and rule book used by the theorems (Spec.FPA.candsOf, Spec.step)
          let sp := Spec.abs p
          let sc := Spec.FPA.candsOf sp.size sp.toMove (fun i => sp.squares.getD i [])
          let slegal := sc.filter (fun m => (Spec.step sp (Spec.decode m)).isSome)
          let sacc := slegal.filter (fun m => Spec.FPA.accepted var r.rule (Spec.FPA.viewOf sp) m)
          let flag := if slegal.length != legal.length || fmtMoves sacc != fmtMoves acc then " SPEC-GENERATOR-MISMATCH" else ""
          some (st, out ++ " | " ++ toString legal.length ++ " | " ++ fmtMoves acc ++ flag)
        | [] => some (st, "bad-op")
      | none => some (st, "panic")
    | none => some (st, "bad-op")
  | "fpafn" =>
    match args with
    | [f, s, x, y] =>
      if f == "adjacent" then
        match x.toInt?, y.toInt? with
        | some x, some y => some (st, withPos s fun p =>
            match adjacent (viewOfPos p) x y with
            | .ok (ex, ey) => s!"{ex},{ey}"
            | .error _ => "panic")
        | _, _ => some (st, "bad-op")
      else
      match s.toNat?, x.toInt?, y.toInt? with
      | some size, some x, some y =>
        let v : View := { size := size, ply := 0, empty := fun _ _ => true }
        if f == "centered" then some (st, if isCentered v x y then "1" else "0")
        else if f == "centeradj" then some (st, if isCenterAdjacent v x y then "1" else "0")
        else some (st, "bad-op")
      | _, _, _ => some (st, "bad-op")
    | ["distance", a, b, c, d] =>
      match a.toInt?, b.toInt?, c.toInt?, d.toInt? with
      | some a, some b, some c, some d => some (st, toString (distance a b c d))
      | _, _, _, _ => some (st, "bad-op")
    | ["dir", a, b, c, d] =>
      match a.toInt?, b.toInt?, c.toInt?, d.toInt? with
      | some a, some b, some c, some d =>
        some (st, match dir a b c d with | .ok t => toString t | .error _ => "panic")
      | _, _, _, _ => some (st, "bad-op")
    | _ => some (st, "bad-op")
  | _ => none

end Driver
