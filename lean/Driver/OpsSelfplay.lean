import Driver.OpsPTN
import Driver.OpsSearch
import TakVerif.Impl.CmdSelfplay

/-! Driver ops of work package "selfplay" (Go side: `harness/verifh/ops_selfplay.go`).

* `sp.sim <cfg> <p1 hex> <p2 hex> <opening>…` — `Simulate` with one worker.
* `sp.open <hex file>` — `readOpenings`.
* `sp.game <p1 hex> <p2 hex> <oi> <i> <p1c> <initial> <final> <moves>` — `writeGame`.
* `sp.run <flags> <hex openings file | ->` — `taktician selfplay`.

The players of the tie (`mkPlayer`, the counterpart of the hooks in `ops_selfplay.go`): `rnd A B D0 D1 [K:err|K:x,y,t,s]…`
answers legal move number `(A·ply + B) mod #legal`, `mm <cfg> D0 D1` is the alpha-beta model (`Search.getMove`, a fresh
engine per game); anything else does not start. -/
namespace Driver.SelfplayOps
open Tak Codec Tak.CmdSelfplay
open Driver.PTNOps (hexDec hexEnc)

inductive PState where
  | rnd (a b d0 d1 : Nat) (inj : List (Nat × Option Move))
  | mm (cfg : Search.Cfg) (ev : String) (eng : Search.Eng Tak.Move) (d0 d1 : Nat)
  | failgame
deriving Inhabited

def bytesStr (b : PTN.Bytes) : String := String.ofList (b.map fun x => Char.ofNat x.toNat)

def digitsNat (s : String) : Option Nat := if s.isEmpty || !s.all Char.isDigit then none else s.toNat?

def parseInj (tok : String) : Option (Nat × Option Move) :=
  match tok.splitOn ":" with
  | [k, "err"] => do pure (← digitsNat k, none)
  | [k, m] => do pure (← digitsNat k, some (← parseMoveInt m))
  | _ => none
where
  parseMoveInt (tok : String) : Option Move :=
    match tok.splitOn "," with
    | [x, y, t, s] => do
      let x ← x.toInt?
      let y ← y.toInt?
      let t ← t.toInt?
      let s ← s.toInt?
      -- `decMove`: int8 coordinates, a byte type, a 32-bit slide word (the generator stays inside these ranges)
      pure { x := x, y := y, type := t.toNat, slides := BitVec.ofNat 32 s.toNat }
    | _ => none

/-- `spParse` -/
def parseSpec (st : St) (argv : List String) : Option PState :=
  match argv with
  | ["failgame"] => some .failgame
  | "rnd" :: a :: b :: d0 :: d1 :: inj => do
    let inj ← inj.mapM parseInj
    -- a later injection for the same ply wins (a Go map)
    pure (.rnd (← digitsNat a) (← digitsNat b) (← digitsNat d0) (← digitsNat d1) inj.reverse)
  | ["mm", ctok, d0, d1] => do
    let (cfg, ev) := parseCfg ctok
    pure (.mm cfg ev (Search.Eng.new (gameOf st ev) cfg) (← digitsNat d0) (← digitsNat d1))
  | _ => none

def legalInOrder (basis : Array W) (p : Pos) : List Move :=
  p.allMoves.filter fun m => match p.apply basis m with | .ok _ => true | .error _ => false

def moveOf (st : St) (s : PState) (p : Pos) : Answer × PState × Int :=
  let ply := p.move.toNat
  match s with
  | .failgame => (.err, s, 0)
  | .rnd a b d0 d1 inj =>
    let dur : Int := d0 + d1 * p.move
    match inj.lookup ply with
    | some none => (.err, s, dur)
    | some (some m) => (.move m, s, dur)
    | none =>
      let ms := legalInOrder st.basis p
      match ms[(a * ply + b) % ms.length]? with
      | some m => (.move m, s, dur)
      | none => (.move ⟨0, 0, 0, 0#32⟩, s, dur)
  | .mm cfg ev eng d0 d1 =>
    let dur : Int := d0 + d1 * p.move
    match Search.getMove (gameOf st ev) cfg (oracleOf 0) p eng with
    | .ok (m, eng') => (.move m, .mm cfg ev eng' d0 d1, dur)
    | .error e => (.crash e, s, dur)

def mkPlayer (st : St) (argv : List PTN.Bytes) : Player PState :=
  match parseSpec st (argv.map bytesStr) with
  | none => { client := false, newGame := fun _ => none, move := fun s _ _ _ => (.err, s, 0) }
  | some .failgame => { client := true, newGame := fun _ => none, move := fun s _ _ _ => (.err, s, 0) }
  | some s0 => { client := true, newGame := fun _ => some s0, move := fun s p _ _ => moveOf st s p }

/-! ### formats -/

def fmtPStats (p : PStats) : String := s!"{p.wins},{p.whiteWins},{p.blackWins},{p.flatWins},{p.roadWins},{p.timeWins}"

def fmtStats (s : Stats) : String := s!"st={s.white},{s.black},{s.ties},{s.cutoff} p1={fmtPStats s.p1} p2={fmtPStats s.p2}"

def fmtStop : Stop → String
  | .ok => "ok"
  | .fatalClient => "fatal:client"
  | .fatalGame => "fatal:game"
  | .fatalGetMove => "fatal:getmove"
  | .panicIllegal => "panic:illegal"
  | .fatalTC => "fatal:tc"
  | .fatalOpenings => "fatal:openings"
  | .crash (.hang _) => "hang"
  | .crash _ => "panic:other"

def fmtMoveList (ms : List Move) : String := if ms.isEmpty then "-" else ";".intercalate (ms.map fmtMove)

def parseMoveList (tok : String) : Option (List Move) := if tok == "-" then some [] else (tok.splitOn ";").mapM parseMove

def fmtGame (r : Result) : String :=
  s!"g={r.spec.oi}.{r.spec.i}.{colorStr r.spec.p1color}.{colorStr r.winner}.{r.position.hashOf.toNat}.{r.position.move}:{fmtMoveList r.moves}"

def callsOf (rs : List Result) : List (Option TEIClient.TimeControl) := rs.flatMap (·.calls)

def fmtCalls (limit : Int) (rs : List Result) : String :=
  let n := (callsOf rs).length
  s!"calls={n},{if limit != 0 then n else 0}"

def parseColor : String → Color
  | "W" => .white | "B" => .black | _ => .none

def fmtSim (c : Config) (st : Stats) (rs : List Result) (stop : Stop) : String :=
  let gs := rs.map fun r => " " ++ fmtGame r
  let clk := (callsOf rs).filterMap fun tc => tc.map fun t => s!"{t.white}/{t.black}/{t.winc}/{t.binc}"
  s!"{fmtStats st} n={rs.length} count={st.count}{String.join gs}" ++
    (if stop == .ok then " " ++ fmtCalls c.limit rs ++ (if clk.isEmpty then "" else " clk=" ++ ";".intercalate clk) else "") ++
    " stop=" ++ fmtStop stop

/-! ### the flags of `sp.run` -/

inductive FlagRes where
  | ok (f : Flags)
  | err
  | unmodelled (w : String)

def limitTable : List (String × Int) := [("0", 0), ("1ns", 1), ("1ms", 1000000), ("1s", 1000000000)]

/-- `parseTimeControl` on the vocabulary of the generator (`time.ParseDuration` is not modelled) -/
def tcTable : List (String × Option (Int × Int)) :=
  [("1s", some (1000000000, 0)), ("1s+1ms", some (1000000000, 1000000)), ("5ms+0s", some (5000000, 0)), ("2ms", some (2000000, 0)),
   ("bad", none), ("1s+bad", none), ("+1s", some (1000000000, 0)), ("1ms+1s", some (1000000, 1000000000))]

def applyFlag (f : Flags) (openings : Option PTN.Bytes) (name : String) (val : Option String) : FlagRes :=
  match name, val with
  | "size", some v => (match v.toInt? with | some n => .ok { f with size := n } | none => .err)
  | "games", some v => (match v.toInt? with | some n => .ok { f with games := n } | none => .err)
  | "cutoff", some v => (match v.toInt? with | some n => .ok { f with cutoff := n } | none => .err)
  | "threads", some "1" => .ok f
  | "seed", some _ => .ok f
  | "swap", some "true" | "swap", some "1" | "swap", none => .ok { f with swap := true }
  | "swap", some "false" | "swap", some "0" => .ok { f with swap := false }
  | "limit", some v => (match limitTable.lookup v with | some n => .ok { f with limit := n } | none => .unmodelled "limit")
  | "tc", some v => (match tcTable.lookup v with | some r => .ok { f with tc := some r } | none => .unmodelled "tc")
  | "openings", some "@" => .ok { f with openings := some (some (openings.getD [])) }
  | "openings", some "!" => .ok { f with openings := some none }
  | "out", some "@" => .ok { f with out := true }
  | "p1", some v => (match hexOfFlag v with | some b => .ok { f with p1 := b } | none => .err)
  | "p2", some v => (match hexOfFlag v with | some b => .ok { f with p2 := b } | none => .err)
  | _, _ => .unmodelled name
where
  hexOfFlag (v : String) : Option PTN.Bytes := if v.startsWith "hex:" then hexDec (v.drop 4).toString else none

def parseFlags (tok : String) (openings : Option PTN.Bytes) : FlagRes :=
  if tok == "-" then .ok {} else
  (tok.splitOn ";").foldl (fun acc a =>
    match acc with
    | .ok f =>
      (match a.splitOn "=" with
       | [n] => applyFlag f openings n none
       | n :: rest => applyFlag f openings n (some ("=".intercalate rest))
       | [] => .err)
    | r => r) (.ok {})

def fmtRun (f : Flags) (r : Report) : String :=
  let st := r.stats
  let lines :=
    (if r.summaryFailed then ["writing summary:"] else []) ++
    [s!"done games={r.games.length} ties={st.ties} cutoff={st.cutoff} white={st.white} black={st.black}",
     s!"p1.wins={st.p1.wins} ({st.p1.roadWins} road/{st.p1.flatWins} flat/{st.p1.timeWins} time) p2.wins={st.p2.wins} ({st.p2.roadWins} road/{st.p2.flatWins} flat/{st.p2.timeWins} time) cutoff={st.cutoff}",
     "white black sum",
     s!"p1 {st.p1.whiteWins} {st.p1.blackWins} {st.p1.wins}",
     s!"p2 {st.p2.whiteWins} {st.p2.blackWins} {st.p2.wins}",
     s!"sum {st.p1.whiteWins + st.p2.whiteWins} {st.p1.blackWins + st.p2.blackWins} {st.p1.wins + st.p2.wins}"]
  let files := (r.files.toArray.qsort (fun a b => a.1 < b.1)).toList.map fun (n, b) => s!" || {n}={hexEnc b}"
  let summary :=
    if r.summary then s!" || summary={hexEnc f.p1},{hexEnc f.p2},{f.limit},{r.gameTime},{r.increment} {fmtStats st}" else ""
  " | ".intercalate lines ++ String.join files ++ summary ++ " || " ++ fmtCalls f.limit r.games

def handleSelfplay : Handler := fun st op args =>
  match op, args with
  | "sp.sim", ctok :: p1 :: p2 :: opens =>
    some (st,
      match hexDec p1, hexDec p2, opens.mapM parsePos with
      | some p1, some p2, some ps =>
        let l := kvs ctok
        let c : Config := { games := kvInt l "games" 1, swap := kvInt l "swap" 1 == 1, cutoff := kvInt l "cutoff" 80,
                            limit := kvInt l "limit" 0, gameTime := kvInt l "gt" 0, increment := kvInt l "inc" 0,
                            initial := ps.map (·.1) }
        let (stt, rs, stop) := simulate st.basis c (mkPlayer st (Go.split 32 p1)) (mkPlayer st (Go.split 32 p2))
        fmtSim c stt rs stop
      | _, _, _ => "bad-args")
  | "sp.open", [h] =>
    some (st, match hexDec h with
      | none => "bad-hex"
      | some b =>
        match readOpenings (PTN.realEnv st.basis) b with
        | .ok ps => " ".intercalate ("ok" :: ps.map fmtPos)
        | .error e => fmtErr e)
  | "sp.game", [p1, p2, oi, i, p1c, ini, fin, ms] =>
    some (st,
      match hexDec p1, hexDec p2, oi.toNat?, i.toNat?, parsePos ini, parsePos fin, parseMoveList ms with
      | some p1, some p2, some oi, some i, some (ini, _), some (fin, _), some ms =>
        let r : Result := { spec := { opening := ini, oi := oi, i := i, p1color := parseColor p1c }, position := fin, moves := ms, winner := .none }
        match writeGame (PTN.realEnv st.basis) (Go.split 32 p1) (Go.split 32 p2) r with
        | .ok b => "file " ++ hexEnc b
        | .error e => fmtErr e
      | _, _, _, _, _, _, _ => "bad-args")
  | "sp.run", [ftok, h] =>
    some (st,
      match parseFlags ftok (if h == "-" then some [] else hexDec h) with
      | .err => "flagerr"
      | .unmodelled w => "unmodelled:" ++ w
      | .ok f =>
        match execute (PTN.realEnv st.basis) f (mkPlayer st) with
        | .error stop => "stop=" ++ fmtStop stop
        | .ok r => fmtRun f r)
  | _, _ => none

end Driver.SelfplayOps

namespace Driver
def handleSelfplay : Handler := SelfplayOps.handleSelfplay
end Driver
