import Driver.State
import TakVerif.Impl.PTN
import TakVerif.Impl.PTNInst
import TakVerif.Impl.PTNSafe
import TakVerif.Impl.TextGlue
import TakVerif.Impl.PTNReal

/-! Driver ops for PTN files (C12), and the PTN-file / chat-line / weights-JSON part of C13.
Every op line is self-contained.  Bytes travel hex-encoded (`-` = empty).

A PTN value (`File`) is written as tokens: `T<name>:<value>` …, `|`, then
`N<number>:<src>`, `M<x,y,type,slides>:<modifiers>:<src>`, `C<comment>:<src>`, `R<result>:<src>`.

The model runs with `PTN.realEnv` (the byte-level models of `ParseMove`/`FormatMove`/`ParseTPS` of
`Impl/PTNMove.lean`, `Impl/TPS.lean`).  Ops that need the start position still carry the real `ParseTPS`'s
answer for the file's `TPS` tag as `<hex of the tag value>=<position | err | panic>` (or `-`); it is parsed
but not used any more. -/
namespace Driver.PTNOps
open Tak Codec PTN

private def hexDigit (n : Nat) : Char := if n < 10 then Char.ofNat (48 + n) else Char.ofNat (87 + n)

def hexEnc (b : Bytes) : String :=
  if b.isEmpty then "-" else
  String.ofList (b.flatMap fun x => [hexDigit (x.toNat / 16), hexDigit (x.toNat % 16)])

def hexVal (c : Char) : Option Nat :=
  if '0' ≤ c ∧ c ≤ '9' then some (c.toNat - 48)
  else if 'a' ≤ c ∧ c ≤ 'f' then some (c.toNat - 87)
  else if 'A' ≤ c ∧ c ≤ 'F' then some (c.toNat - 55)
  else none

def hexDecAux : List Char → List UInt8 → Option (List UInt8)
  | [], acc => some acc.reverse
  | [_], _ => none
  | a :: b :: cs, acc => do
    let x ← hexVal a
    let y ← hexVal b
    hexDecAux cs (UInt8.ofNat (x * 16 + y) :: acc)

def hexDec (s : String) : Option Bytes :=
  if s == "-" || s == "" then some [] else hexDecAux s.toList []

def fmtTag (t : Tag) : String := s!"T{hexEnc t.name}:{hexEnc t.value}"

def fmtOp : PTN.Op → String
  | .moveNumber src n => s!"N{n}:{hexEnc src}"
  | .move src m mods => s!"M{fmtMove m}:{hexEnc mods}:{hexEnc src}"
  | .comment src c => s!"C{hexEnc c}:{hexEnc src}"
  | .result src r => s!"R{hexEnc r}:{hexEnc src}"

def fmtFile (f : File) : String :=
  " ".intercalate (f.tags.map fmtTag ++ ["|"] ++ f.ops.map fmtOp)

def parseTagTok (tok : String) : Option Tag :=
  match (tok.drop 1).toString.splitOn ":" with
  | [n, v] => do pure ⟨← hexDec n, ← hexDec v⟩
  | _ => none

def parseOpTok (tok : String) : Option PTN.Op :=
  let body := (tok.drop 1).toString
  match tok.front, body.splitOn ":" with
  | 'N', [n, s] => do pure (.moveNumber (← hexDec s) (← n.toInt?))
  | 'M', [m, mods, s] => do pure (.move (← hexDec s) (← Codec.parseMove m) (← hexDec mods))
  | 'C', [c, s] => do pure (.comment (← hexDec s) (← hexDec c))
  | 'R', [r, s] => do pure (.result (← hexDec s) (← hexDec r))
  | _, _ => none

def parseFile (toks : List String) : Option File := do
  let tags := toks.takeWhile (· ≠ "|")
  let ops := (toks.dropWhile (· ≠ "|")).drop 1
  pure ⟨← tags.mapM parseTagTok, ← ops.mapM parseOpTok⟩

/-- the harness's answer for `ParseTPS(<the TPS tag>)` -/
def parseTpsRes (tok : String) : Option (Bytes → R Pos) :=
  if tok == "-" then some (fun _ => .error (.hang "unresolved TPS")) else
  match tok.splitOn "=" with
  | [k, v] => do
    let key ← hexDec k
    let r : R Pos ←
      if v == "err" then some (.error (.illegal "ParseTPS"))
      else if v == "panic" then some (.error (.panic "ParseTPS"))
      else match parsePos v with
        | some (p, true) => some (.ok p)
        | _ => none
    pure (fun b => if b == key then r else .error (.hang "unresolved TPS"))
  | _ => none

/-- the environment of the linked theorems (`PTN.realEnv`): the byte-level models of `ParseMove`, `FormatMove`,
`ParseTPS`.  The harness's own `ParseTPS` answer (`tps`) is no longer consulted. -/
private def mkEnv (st : St) (_tps : Bytes → R Pos) : Env := realEnv st.basis

def noTps : Bytes → R Pos := fun _ => .error (.hang "unresolved TPS")

def fmtErr' : Err → String
  | .hang "unresolved TPS" => "unresolved-tps"
  | e => fmtErr e

private def fmtR {α} (r : R α) (k : α → String) : String :=
  match r with
  | .ok a => "ok " ++ k a
  | .error e => fmtErr' e

def colorOf (s : String) : Option Color :=
  if s == "W" then some .white else if s == "B" then some .black else if s == "N" then some .none else none

/-- run `Next` until it returns false; one word per call -/
def traceLoop (env : Env) : Nat → Iter → List String → String
  | 0, _, acc => " ".intercalate (acc.reverse ++ ["hang"])
  | fuel+1, it, acc =>
    match it.next env with
    | .error e => " ".intercalate (acc.reverse ++ [fmtErr' e])
    | .ok (it, true) =>
      let pos := match it.position with | some p => fmtPos p | none => "nil"
      traceLoop env fuel it (s!"T:{it.ptnMove}:{fmtMove it.lastMove}:{fmtMove it.move}:{pos}" :: acc)
    | .ok (it, false) =>
      -- `R:kept`: every position handed out by `Position()` earlier still shows what it showed then (positions are values)
      " ".intercalate (acc.reverse ++ [if it.err.isSome then "F:err" else "F:ok", "R:kept"])

def traceOf (env : Env) (f : File) : String :=
  match iterator env f with
  | .error e => fmtErr' e
  | .ok it => traceLoop env (f.ops.length + 3) it []

private def fmtInts (a : Array Int) : String := ",".intercalate (a.toList.map toString)

def parseKV (tok : String) : Option (List (Bytes × Int)) :=
  if tok == "-" then some [] else
  (tok.splitOn ",").mapM fun kv =>
    match kv.splitOn "=" with
    | [k, v] => do pure (← hexDec k, ← v.toInt?)
    | _ => none

def handlePTN : Handler := fun st op args =>
  match op, args with
  -- `ParseFile` is `ParsePTN` of the file's bytes
  | "ptnfile", [h] =>
    some (st, match hexDec h with
      | none => "bad-hex"
      | some b => fmtR (parsePTN (mkEnv st noTps) b) fmtFile)
  | "ptnchunk", [_k, h] =>
    some (st, match hexDec h with
      | none => "bad-hex"
      | some b => fmtR (parsePTN (mkEnv st noTps) b) fmtFile)
  | "ptnparse", [h] =>
    some (st, match hexDec h with
      | none => "bad-hex"
      | some b => fmtR (parsePTN (mkEnv st noTps) b) fmtFile)
  | "ptnedit", [h, hm, hc] =>
    -- parse, edit (annotations of every other move, every third comment), render: `Render` reads the value, not the
    -- source tokens
    some (st, match hexDec h, hexDec hm, hexDec hc with
      | some b, some mods, some com =>
        let env := mkEnv st noTps
        match parsePTN env b with
        | .error e => fmtErr' e
        | .ok f =>
          let rec go (nm nc : Nat) : List PTN.Op → List PTN.Op
            | [] => []
            | PTN.Op.move src m md :: r => (PTN.Op.move src m (if nm % 2 == 0 then mods else md)) :: go (nm + 1) nc r
            | PTN.Op.comment src c :: r => (PTN.Op.comment src (if nc % 3 == 0 then com else c)) :: go nm (nc + 1) r
            | o :: r => o :: go nm nc r
          hexEnc (render env { f with ops := go 0 0 f.ops })
      | _, _, _ => "bad-hex")
  | "ptnrender", toks =>
    some (st, match parseFile toks with
      | none => "bad-file"
      | some f => hexEnc (render (mkEnv st noTps) f))
  | "ptnrt", toks =>
    -- render, parse again, compare tags and ops (src cleared): `same` / `differs` / `err`
    some (st, match parseFile toks with
      | none => "bad-file"
      | some f =>
        let env := mkEnv st noTps
        match parsePTN env (render env f) with
        | .error e => fmtErr' e
        | .ok g => if g.tags == f.tags && g.ops.map Op.clearSrc == f.ops.map Op.clearSrc then "same" else "differs")
  | "ptnsafe", toks =>
    -- the class of the value under the decidable safety predicate of `Impl/PTNSafe.lean` (`nomove`: some move is
    -- not `moveSafe`; else `safe` / `lossy` = not `dataSafe`), then the outcome of render + parse as in `ptnrt`.
    -- `C12.render_parse_bytes` says: `safe` goes with `same`, `lossy` never does.
    some (st, match parseFile toks with
      | none => "bad-file"
      | some f =>
        let env := mkEnv st noTps
        let cls := if !movesSafe env f then "nomove" else if dataSafe env f then "safe" else "lossy"
        let rt := match parsePTN env (render env f) with
          | .error e => fmtErr' e
          | .ok g => if g.sameAs f then "same" else "differs"
        cls ++ " " ++ rt)
  | "ptnaddmoves", toks =>
    some (st, match toks.mapM Codec.parseMove with
      | none => "bad-move"
      | some ms => fmtFile ((⟨[], []⟩ : File).addMoves ms))
  | "ptninit", [h, tr] =>
    some (st, match hexDec h, parseTpsRes tr with
      | some b, some tps =>
        let env := mkEnv st tps
        (match parsePTN env b with
         | .error e => fmtErr' e
         | .ok f => fmtR (initialPosition env f) fmtPos)
      | _, _ => "bad-arg")
  | "ptnat", [n, c, h, tr] =>
    some (st, match n.toInt?, colorOf c, hexDec h, parseTpsRes tr with
      | some n, some c, some b, some tps =>
        let env := mkEnv st tps
        (match parsePTN env b with
         | .error e => fmtErr' e
         | .ok f => fmtR (positionAtMove env f n c) fmtPos)
      | _, _, _, _ => "bad-arg")
  | "ptniter", [h, tr] =>
    some (st, match hexDec h, parseTpsRes tr with
      | some b, some tps =>
        let env := mkEnv st tps
        (match parsePTN env b with
         | .error e => fmtErr' e
         | .ok f => traceOf env f)
      | _, _ => "bad-arg")
  | "ptnatf", n :: c :: tr :: toks =>
    some (st, match n.toInt?, colorOf c, parseTpsRes tr, parseFile toks with
      | some n, some c, some tps, some f => fmtR (positionAtMove (mkEnv st tps) f n c) fmtPos
      | _, _, _, _ => "bad-arg")
  -- a PTN value queried, given other tags and moves, queried again: the answers of the second file
  | "ptnreuse", _mode :: n :: c :: tr :: toks =>
    let fileB := (toks.reverse.takeWhile (· != "||")).reverse
    some (st, match n.toInt?, colorOf c, parseTpsRes tr, parseFile fileB with
      | some n, some c, some tps, some f =>
        let env := mkEnv st tps
        fmtR (positionAtMove env f n c) fmtPos ++ " / " ++ fmtR (initialPosition env f) fmtPos
      | _, _, _, _ => "bad-arg")
  | "ptniterf", tr :: toks =>
    some (st, match parseTpsRes tr, parseFile toks with
      | some tps, some f => traceOf (mkEnv st tps) f
      | _, _ => "bad-arg")
  | "chat", [kind, h] =>
    some (st, match hexDec h with
      | none => "bad-hex"
      | some line =>
        let r := if kind == "tell" then TextGlue.parseTell TextGlue.regexpInst line
                 else if kind == "shout" then TextGlue.parseShout TextGlue.regexpInst line
                 else TextGlue.parseShoutRoom TextGlue.regexpInst line
        fmtR r (fun gs => " ".intercalate (gs.map hexEnc)))
  | "weightsjson", [_, res] =>
    -- the harness sends json.Unmarshal's own answer (`err`, or the decoded map); the model is the glue
    some (st, match (if res == "err" then some (Except.error (Err.illegal "json")) else (parseKV res).map Except.ok) with
      | none => "bad-arg"
      | some (lib : R (List (Bytes × Int))) =>
        fmtR (TextGlue.unmarshalWeights ⟨fun _ => lib⟩ TextGlue.featureNames (Array.replicate Facts.maxFeature 0) []) fmtInts)
  | _, _ => none

end Driver.PTNOps

namespace Driver
def handlePTN : Handler := PTNOps.handlePTN
end Driver
