import Driver.OpsCore
import Driver.OpsEval
namespace Driver
open Tak Codec

/-! Model side of the exported-accessor ops (`harness/verifh/ops_api.go`): what `Top`, `At`, `Analysis()`, `ToMove`,
`MoveNumber`, the stone reserves, `Piece.IsRoad` and `GameOver` must show for a position, read off the list-level
abstraction `Spec.abs` (C01) and the model's road groups / outcome (C02). -/

def sortedNats (l : List Nat) : String :=
  if l.isEmpty then "-" else ",".intercalate ((l.toArray.qsort (· < ·)).toList.map toString)

def accStr (p : Pos) : String :=
  let s := Spec.abs p
  let tops := s.squares.map (fun q => match q with
    | [] => "_"
    | t :: _ => pieceChar t ++ toString q.length)
  let road := s.squares.map (fun q => match q with
    | [] => "."
    | t :: _ => if t.kind == .standing then "s" else "r")
  let d := p.winDetails
  s!"sz={p.cfg.size} tm={colorStr p.toMove} mn={p.move} ws={p.whiteStones.toNat} bs={p.blackStones.toNat} tops={",".intercalate tops} road={"".intercalate road} wg={sortedNats (p.wgroups.map (·.toNat))} bg={sortedNats (p.bgroups.map (·.toNat))} over={if d.over then 1 else 0}{colorStr d.winner} own=ok"

def handleApi : Handler := fun st op args =>
  match op, args with
  | "acc", [ptok] => some (st, withPos ptok accStr)
  | "accmove", [ptok, mtok] =>
    some (st, withPos ptok fun p =>
      match parseMove mtok with
      | none => "bad-move"
      | some m =>
        match p.apply st.basis m with
        | .ok q => accStr q
        | .error e => fmtErr e)
  -- `MinimaxAI.Evaluate` with the default weights: the value of `ai.MakeEvaluator(size, nil)` (C18's `eval`), whatever the
  -- engine was asked before
  | "evalmm", [ptok] => some (st, withPos ptok fun p => fmtRInt (evaluateDefault p.c p))
  | "evalmm", [ptok, _] => some (st, withPos ptok fun p => fmtRInt (evaluateDefault p.c p))
  -- storage is invisible in the model (C09): `movepre2` is `move` of the good move, `overstack` the verdict of the
  -- position after m1, m2
  | "movepre2", [ptok, _mfail, mtok, _dirt] =>
    some (st, withPos ptok fun p =>
      match parseMove mtok with
      | none => "bad-move"
      | some m =>
        match p.apply st.basis m with
        | .ok q => "ok " ++ fmtPos q
        | .error e => fmtErr e)
  | "overclone", [ptok, m1, _m2] =>
    some (st, withPos ptok fun p =>
      match parseMove m1 with
      | none => "bad-move"
      | some a =>
        match p.apply st.basis a with
        | .error e => fmtErr e
        | .ok r =>
          let d := r.winDetails
          fmtOutcome d.over d.winner (d.reason == .road) d.whiteFlats d.blackFlats ++ " " ++ accStr r)
  | "overstack", [ptok, m1, m2, _m3] =>
    some (st, withPos ptok fun p =>
      match parseMove m1, parseMove m2 with
      | some a, some b =>
        match p.apply st.basis a with
        | .error e => fmtErr e
        | .ok q =>
          match q.apply st.basis b with
          | .error e => fmtErr e
          | .ok r =>
            let d := r.winDetails
            fmtOutcome d.over d.winner (d.reason == .road) d.whiteFlats d.blackFlats ++ " " ++ accStr r
      | _, _ => "bad-move")
  | "cfgreuse", [_src, ptok] =>
    -- where a Config value came from is invisible: the verdict and the accessors of the rebuilt position are those of the
    -- target (rebuilt from its squares: C01.fromSquares_wf), and a new game of that configuration has its size and stones
    some (st, withPos ptok fun p =>
      let board := (Spec.abs p).squares.map (fun sq => sq.map Piece.code)
      match Pos.fromSquares st.basis p.cfg board p.move with
      | .error e => fmtErr e
      | .ok q =>
        let d := q.winDetails
        let fresh := match Pos.new p.cfg with
          | .ok f => s!"{f.cfg.size},{f.whiteStones.toNat}"
          | .error e => fmtErr e
        fmtOutcome d.over d.winner (d.reason == .road) d.whiteFlats d.blackFlats ++ " " ++ accStr q ++ " new=" ++ fresh)
  | "newplay", size :: pieces :: caps :: bwt :: toks =>
    match size.toNat?, pieces.toNat?, caps.toNat? with
    | some n, some pc, some cp =>
      match Pos.new { size := n, pieces := pc, capstones := cp, blackWinsTies := bwt != "0" } with
      | .error e => some (st, fmtErr e)
      | .ok p0 =>
        let rec go (p : Pos) (i : Nat) : List String → String
          | [] => "ok " ++ fmtPos p
          | t :: ts =>
            match parseMove t with
            | none => "bad-move"
            | some m =>
              match p.apply st.basis m with
              | .ok q => go q (i + 1) ts
              | .error (.panic e) => fmtErr (.panic e)
              | .error _ => s!"err@{i} " ++ fmtPos p
        some (st, go p0 0 toks)
    | _, _, _ => some (st, "bad-op")
  | "api.flood", [n, w, s] =>
    match n.toNat?, w.toNat?, s.toNat? with
    | some n, some w, some s =>
      some (st, match flood (Gen.precompute n) (BitVec.ofNat 64 w) (BitVec.ofNat 64 s) with
        | some r => toString r.toNat
        | none => "hang")
    | _, _, _ => some (st, "bad-op")
  | "api.bits", [n, b] =>
    match n.toNat?, b.toNat? with
    | some n, some b =>
      let w := BitVec.ofNat 64 b
      if b == 0 || n == 0 then some (st, "panic") else
      let tz := trailingZeros w
      some (st, s!"tz={tz} pop={popcount w} xy={tz % n},{tz / n}")
    | _, _ => some (st, "bad-op")
  -- `MakePrecise` must switch off exactly the three value-changing options (C05's "value-preserving options")
  | "mkprecise", [_] => some (st, "null=0 red=0 mc=0")
  | _, _ => none

end Driver
