import TakVerif.Impl.FPA
open Tak Tak.FPA

structure OSt where
  rule : Rule
  cur : Pos
  prev : Option (Pos × Move)
  lastScripted : Bool

def basis0 : Array W := Array.replicate 64 0#64

def turn (var : Variant) (color : Color) (s : OSt) : R (Rule × Reply) :=
  friendlyGetMove var color s.rule (viewOfPos s.cur) s.cur.toMove (s.prev.map (fun (q, m) => (viewOfPos q, m)))

def good (var : Variant) (color : Color) (s : OSt) : Bool :=
  match turn var color s with
  | .error _ => false
  | .ok (_, .resign) => !s.lastScripted
  | .ok (_, .scripted m) => (s.cur.apply basis0 m).isOk
  | .ok _ => true

def next (var : Variant) (color : Color) (s : OSt) : List OSt :=
  match turn var color s with
  | .ok (r, .scripted m) =>
    match s.cur.apply basis0 m with
    | .ok q => [{ rule := r, cur := q, prev := some (s.cur, m), lastScripted := true }]
    | .error _ => []
  | .ok (_, .resign) => []
  | .ok (r, _) =>
    (s.cur.allMoves.filter (fun m => match legalMove var r (viewOfPos s.cur) m with | .ok (_, ok) => ok | .error _ => false)).filterMap
      (fun m => match s.cur.apply basis0 m with
        | .ok q => some { rule := r, cur := q, prev := some (s.cur, m), lastScripted := false }
        | .error _ => none)
  | .error _ => []

def check (var : Variant) (color : Color) : Nat → OSt → Bool
  | 0, s => good var color s
  | n+1, s => good var color s && (next var color s).all (check var color n)

def count (var : Variant) (color : Color) : Nat → OSt → Nat
  | 0, _ => 1
  | n+1, s => match next var color s with
    | [] => 1
    | l => (l.map (count var color n)).foldl (· + ·) 0

def init (size : Nat) : Option OSt :=
  match Pos.new { size := size, pieces := 0, capstones := 0, blackWinsTies := true } with
  | .ok p => some { rule := {}, cur := p, prev := none, lastScripted := false }
  | .error _ => none

def checkFrom (var : Variant) (color : Color) (size : Nat) : Bool :=
  match init size with
  | some s => check var color 6 s
  | none => false

#eval (init 5).map (count .doubleStack .white 6)
#eval checkFrom .doubleStack .white 5
#eval checkFrom .cairn .black 6
set_option maxRecDepth 1000000 in
theorem t1 : checkFrom .doubleStack .white 4 = true := by decide +kernel
